"""C20 - only the request-side clauses are decided: no Cerenkov photons are requested below
threshold, none for neutral/inactive tracks, requests carry the pre-step time.  The per-photon
numeric relations are not decided."""
from common import C, short, local_refs
from cfg import path_leaf

LEVEL_TEXT = (
    "Static guard rules on the request side of the optical generation (CFG of "
    "CerenkovDndxCalculator, CerenkovOffload, ScintillationOffload and the offload executors): "
    "the photon yield is literal zero on the below-threshold edge and clamped non-negative "
    "otherwise; a request with a zero yield returns an empty distribution; requests are made "
    "only for charged, active tracks; the request's time is the parent's pre-step time. The "
    "per-photon numeric clauses (unit vectors, orthogonality, cone angle, segment membership, "
    "energy range) are NOT decided.")
EXPLANATION = LEVEL_TEXT
NOT_DECIDED = ('the per-photon numeric relations other than unit length by construction: polarisation orthogonality and the Cerenkov cone as values, position on the segment, energy inside the table range, time')

TECHNIQUE = ('CFG guard dominance / must-pass on the photon-request path (threshold edge returns literal zero, clamp on other returns, guarded request fields); unit-vector typestate: provenance of every direction / polarisation write and rotate() argument traced to make_unit_vector / from_spherical / rotate')

UNITS = [
    "src/celeritas/optical/detail/CerenkovOffloadAction.cc",
    "src/celeritas/optical/detail/ScintOffloadAction.cc",
    "src/celeritas/optical/detail/CerenkovGeneratorAction.cc",
    "src/celeritas/optical/detail/ScintGeneratorAction.cc",
]
O = C + "optical::"


def run(db, cx):
    # 1. dN/dx is zero below threshold, non-negative otherwise
    fs = db.get(O + "CerenkovDndxCalculator::operator()")
    cx.require(fs, "anchor CerenkovDndxCalculator::operator() not found")
    for f in fs:
        par = f.r["params"][0]["n"]
        # inv_beta variable: defined as 1 / beta.value()
        invs = set(e.get("var") for (_b, _i, e) in f.events("def")
                   if par in e.get("refs", []) and "/" in e.get("rhs", ""))
        brs = f.branch_blocks(lambda c, _b: c.get("op") == ">" and bool(invs & set(c.get("lrefs", [])))
                              and any("refractive" in x.lower() or x.endswith("Calculator::operator()")
                                      for x in c.get("rcalls", [])))
        ok = False
        for br in brs:
            tgt = f.blocks[br]["succ"][f.cond_polarity_edge(br, True)]
            if tgt is None:
                continue
            ok = f.must_pass(lambda e: e["e"] == "return" and e.get("lit") in ("0", "0.0"),
                             start=(tgt, -1))[0]
        cx.ob("C20.1-threshold", "dN/dx returns 0 on the edge 1/beta > n(E_max)", ok,
              "%d threshold test(s)" % len(brs), short(f.loc),
              why="below the Cerenkov threshold (beta*n < 1 everywhere) no photon may be requested")
        rets = [e for (_b, _i, e) in f.events("return") if e.get("lit") is None]
        okc = bool(rets) and all(C + "clamp_to_nonneg" in e.get("calls", []) for e in rets)
        cx.ob("C20.1-threshold", "every other return of dN/dx is clamp_to_nonneg(...)", okc,
              str([e.get("t", "")[:50] for e in rets]), short(f.loc),
              why="a negative yield becomes a huge unsigned photon count downstream")
    # 2. offload: zero yield -> empty request; fields only when photons are requested
    for name, yfield in ((C + "CerenkovOffload", "num_photons_per_len_"),
                         (C + "ScintillationOffload", "mean_num_photons_")):
        fs = db.get(name + "::operator()")
        cx.require(fs, "anchor %s::operator() not found" % name)
        for f in fs:
            tws = [(b, i, e) for (b, i, e) in f.events("write")
                   if path_leaf(e.get("path")) == O + "GeneratorDistributionData::time"]
            ok = bool(tws)
            pre_ok = bool(tws)
            for (b, i, e) in tws:
                g = False
                for br in f.branch_blocks(lambda c, _b: "F:" + O + "GeneratorDistributionData::num_photons"
                                          in c.get("refs", []) and c.get("op") == ">" and c.get("rlit") == "0"):
                    if f.guarded_by_edge((b, i), br, f.cond_polarity_edge(br, True)):
                        g = True
                ok = ok and g
                pre_ok = pre_ok and any(r.endswith("OffloadPreStepData::time") for r in e.get("refs", [])) \
                    and not e.get("calls") and e.get("rhs", "").replace("this->", "") == "pre_step_.time"
            cx.ob("C20.2-request", "%s fills the request only when num_photons > 0" % name.split("::")[-1],
                  ok, "", short(f.loc), why="a populated request with zero photons is still dispatched")
            cx.ob("C20.2-request", "%s stamps the request with the parent's pre-step time" % name.split("::")[-1],
                  pre_ok, str([e.get("rhs") for (_b, _i, e) in tws]), short(f.loc),
                  why="photon times are offsets from this value; the post-step time would make "
                      "early photons precede their parent")
            # number of photons is only defined from a distribution of the yield (or stays 0)
            nws = [e for (_b, _i, e) in f.events("write")
                   if path_leaf(e.get("path")) == O + "GeneratorDistributionData::num_photons"]
            okn = bool(nws) and all(any(r.endswith("::" + yfield) for r in e.get("refs", [])) for e in nws)
            cx.ob("C20.2-request", "%s draws num_photons from its mean yield only" % name.split("::")[-1],
                  okn, str([e.get("rhs", "")[:60] for e in nws]), short(f.loc))
            if yfield == "num_photons_per_len_":
                brs = f.branch_blocks(lambda c, _b: "F:" + name + "::" + yfield in c.get("refs", [])
                                      and c.get("op") == "==" and c.get("rlit") in ("0", "0.0"))
                okz = False
                for br in brs:
                    tgt = f.blocks[br]["succ"][f.cond_polarity_edge(br, True)]
                    okz = tgt is not None and f.must_pass(
                        lambda e: e["e"] == "return" and e.get("t") in ("{}", "celeritas::optical::GeneratorDistributionData{}"),
                        start=(tgt, -1))[0]
                cx.ob("C20.2-request", "CerenkovOffload returns an empty request when the yield is zero",
                      okz, "", short(f.loc))
    # yield comes from the dN/dx calculator at the mean speed
    for f in db.get(C + "CerenkovOffload::CerenkovOffload"):
        ws = [e for (_b, _i, e) in f.events("write")
              if path_leaf(e.get("path")) == C + "CerenkovOffload::num_photons_per_len_"]
        ok = len(ws) == 1 and O + "CerenkovDndxCalculator::operator()" in ws[0].get("calls", [])
        bdef = [e for (_b, _i, e) in f.events("def") if "0.5" in e.get("rhs", "")
                and any(r.endswith("::speed") for r in e.get("refs", []))]
        cx.ob("C20.1-threshold", "the yield per length is dN/dx at the mean of pre- and post-step speed",
              ok and bool(bdef), ws[0].get("rhs") if ws else "-", short(f.loc),
              why="the threshold must be tested with the same mean speed the generator uses")
    # the two step-point records whose speeds are averaged are the parent's own: the pre-step record
    # handed in and {particle.speed(), pos}; nothing edits them afterwards
    for f in db.get(C + "CerenkovOffload::CerenkovOffload"):
        recs = {}
        for (_b, _i, e) in f.events("write"):
            ch = e.get("path", {}).get("chain", [])
            if e.get("path", {}).get("root") == "this" and ch and \
                    ch[0] in ("f:" + C + "CerenkovOffload::pre_step_", "f:" + C + "CerenkovOffload::post_step_"):
                recs.setdefault(ch[0].split("::")[-1], []).append(e)
        prm = [p_["n"] for p_ in f.r["params"] if "OffloadPreStepData" in p_.get("cty", p_.get("ty", ""))]
        speed_calls = [e for (_b, _i, e) in f.events("call") if e["callee"] == C + "ParticleTrackView::speed"]
        late = [e for es in recs.values() for e in es if e.get("kind") != "ctorinit"]
        pre_ok = [e.get("rhs", "").strip() for e in recs.get("pre_step_", [])] == prm[:1] and bool(prm)
        post = recs.get("post_step_", [])
        post_ok = len([e for e in post if e.get("kind") == "ctorinit"]) == 1 and bool(speed_calls) and \
            ".speed()" in post[0].get("rhs", "") and not any(ch in post[0].get("rhs", "") for ch in "+*/")
        cx.ob("C20.1-threshold", "the averaged speeds are the parent's own pre- and post-step speeds",
              pre_ok and post_ok and not late,
              "; ".join("%s %s= %s @%s" % ((e.get("lhs") or "/".join(x.split("::")[-1] for x in e["path"]["chain"])),
                                          e.get("op", "").rstrip("="), e.get("rhs"), short(e["loc"]).split(":", 1)[1])
                        for e in late) or "pre_step_(%s), post_step_(%s)" % (
                            ",".join(prm), post[0].get("rhs") if post else "?"),
              short(f.loc),
              why="the threshold decision and the cone angle use the mean of these two speeds; a "
                  "substituted speed (e.g. for a parent that stops in the step) requests photons "
                  "below threshold and puts them on the wrong cone")
    # 3. executors: only charged, active tracks with a valid pre-step record
    for nm in (C + "detail::CerenkovOffloadExecutor::operator()",):
        for f in db.get(nm):
            gen = [(b, i) for (b, i, e) in f.events("call") if e["callee"] == C + "CerenkovOffload::operator()"]
            cx.require(gen, "CerenkovOffloadExecutor no longer calls the offload functor")
            for (b, i) in gen:
                gch = gin = False
                for br in f.branch_blocks(lambda c, _b: C + "ParticleTrackView::charge" in c.get("calls", [])
                                          and c.get("op") == "!="):
                    if f.guarded_by_edge((b, i), br, f.cond_polarity_edge(br, True)):
                        gch = True
                for br in f.branch_blocks(lambda c, _b: c.get("renum", "").endswith("TrackStatus::inactive")):
                    c = f.blocks[br]["cond"]
                    if f.guarded_by_edge((b, i), br, f.cond_polarity_edge(br, c["op"] != "==")):
                        gin = True
                cx.ob("C20.3-who-requests", "Cerenkov photons are requested only for charged tracks",
                      gch, "", short(f.loc), why="neutral particles do not radiate")
                cx.ob("C20.3-who-requests", "... and only for active slots", gin, "", short(f.loc))
            # the slot's distribution is cleared first on every path
            okp, p_ = f.must_pass(lambda e: e["e"] == "write" and e.get("rhs") == "{}"
                                  and "GeneratorDistributionData" in str(e.get("calls", [])) or
                                  (e["e"] == "write" and e.get("rhs") == "{}" and e.get("kind") == "opassign"))
            cx.ob("C20.3-who-requests", "the slot's request is cleared on every path", okp, "",
                  short(f.loc), path=f.path_locs(p_),
                  why="a stale request from the previous step would generate photons for a step "
                      "that is below threshold")

    unit_vectors(db, cx)
    position_on_segment(db, cx)


UNIT_CTORS = {C + "make_unit_vector", C + "from_spherical", C + "rotate", C + "IsotropicDistribution::operator()"}


def _unit_by_construction(db, f, ev_like):
    """The value is produced by a unit-vector constructor and not post-processed by vector
    arithmetic; an immediately invoked lambda is judged by its return statements."""
    calls = set(ev_like.get("calls", []))
    vec_ops = [c for c in calls if c.startswith(C + "operator") or c in (C + "axpy",)]
    if calls & UNIT_CTORS and not vec_ops:
        return True, "built by %s" % ", ".join(sorted(x.split("::")[-1] for x in calls & UNIT_CTORS))
    lam = [c for c in calls if "(lambda" in c]
    if lam and not (calls - set(lam)):
        oks = []
        line = ":".join((ev_like.get("loc") or "").split(":")[:2])
        here = [l for (_b, _i, l) in f.events("lambda") if ":".join(l["loc"].split(":")[:2]) == line]
        for l in here:
            for g in db.get(l.get("callee", "")):
                if l.get("inst") and g.inst != l["inst"] and f.inst not in g.inst:
                    continue
                for (_b, _i, r) in g.events("return"):
                    oks.append(_unit_by_construction(db, g, r)[0])
        if oks and all(oks):
            return True, "immediately invoked lambda returning a unit-vector constructor"
    return False, "`%s` is not a unit-vector constructor" % (ev_like.get("rhs") or ev_like.get("t"))


def unit_vectors(db, cx):
    """C20.4: unit direction / polarisation and the rotation frame are unit vectors *by
    construction*: every write of TrackInitializer::direction / polarization in the photon
    generators, and every axis handed to rotate(), is the direct result of make_unit_vector,
    from_spherical or rotate (rotate() itself only has a debug assertion on its axis)."""
    import re
    gens = [f for n_ in db.find(r"^celeritas::optical::(Cerenkov|Scintillation)Generator::operator\(\)$")
            for f in db.get(n_)]
    cx.floor("optical photon generators", len(gens), 2)
    TI = O + "TrackInitializer::"
    for f in gens:
        cls = f.name.rsplit("::", 1)[0]
        for (b, i, ev) in f.events("write"):
            leaf = path_leaf(ev.get("path"))
            if leaf not in (TI + "direction", TI + "polarization"):
                continue
            ok, d = _unit_by_construction(db, f, ev)
            cx.ob("C20.4-unit-vectors", "%s: photon %s is a unit vector by construction" % (
                cls.split("::")[-1], leaf.split("::")[-1]), ok, d, short(ev["loc"]),
                why="the photon's direction and polarisation must be unit vectors")
        for (b, i, ev) in f.calls(C + "rotate"):
            for k, a in enumerate(ev.get("args", [])[:2]):
                what = "rotated vector" if k == 0 else "rotation axis"
                p = a.get("path")
                if a.get("calls"):
                    ok, d = _unit_by_construction(db, f, a)
                elif p and p["root"] == "this" and len(p["chain"]) == 1 and p["chain"][0].startswith("f:"):
                    mem = p["chain"][0][2:]
                    ws = []
                    for n_ in db.find("^" + re.escape(cls) + "::"):
                        for g in db.get(n_):
                            for (_b, _i, w) in g.events("write"):
                                if path_leaf(w.get("path")) == mem:
                                    ws.append((g, w))
                    res = [_unit_by_construction(db, g, w) for g, w in ws]
                    ok = bool(res) and all(r[0] for r in res)
                    d = "; ".join(r[1] for r in res) or "no write of %s found" % mem
                elif p and p["root"].startswith("l:"):
                    defs = f.reaching_defs(p["root"][2:], (b, i))
                    res = [_unit_by_construction(db, f, dd) for (_b, _i, dd) in defs]
                    ok = bool(res) and all(r[0] for r in res)
                    d = "; ".join(r[1] for r in res)
                else:
                    ok, d = False, "cannot trace `%s`" % a.get("t")
                cx.ob("C20.4-unit-vectors", "%s: %s `%s` of rotate() is a unit vector by construction [@%s]"
                      % (cls.split("::")[-1], what, a.get("t", "")[:40], short(ev["loc"]).split(":")[-1]),
                      ok, d, short(ev["loc"]),
                      why="rotate(v, axis) builds an orthonormal frame from `axis` only if it is a unit "
                          "vector (debug assertion only): with a shorter axis the photon leaves the "
                          "Cerenkov cone and its polarisation is no longer perpendicular to it")


def position_on_segment(db, cx):
    """C20.5: the emission point is a convex combination of the parent's step points by
    construction: position = pre.pos, then axpy(u, post.pos - pre.pos, &position) with u a
    canonical sample in [0, 1) or the literal 1.  (The step *length* is the true path length and
    may exceed |post - pre| on curved steps, so it may not be used to place the photon.)"""
    import re
    gens = [f for n_ in db.find(r"^celeritas::optical::(Cerenkov|Scintillation)Generator::operator\(\)$")
            for f in db.get(n_)]
    TI = O + "TrackInitializer::position"
    POS = "F:" + O + "GeneratorStepData::pos"
    for f in gens:
        cls = f.name.rsplit("::", 1)[0]
        ws = [(b, i, ev) for (b, i, ev) in f.events("write") if path_leaf(ev.get("path")) == TI]
        ok_init = bool(ws) and all(POS in w.get("refs", []) and "E:celeritas::StepPoint::pre" in w.get("refs", [])
                                   and not w.get("calls", []) or
                                   (POS in w.get("refs", []) and "E:celeritas::StepPoint::pre" in w.get("refs", [])
                                    and all(c.endswith("operator[]") for c in w.get("calls", [])))
                                   for (_b, _i, w) in ws)
        moves = [(b, i, ev) for (b, i, ev) in f.calls(C + "axpy")
                 if len(ev.get("args", [])) == 3 and TI in [path_leaf({"root": "", "chain": [x for x in (ev["args"][2].get("path") or {}).get("chain", []) if x != "&"]})]]
        problems = []
        if not ok_init:
            problems.append("position is not initialised from the pre-step point")
        if len(moves) != 1:
            problems.append("%d displacement(s) of the position, expected one axpy(u, post - pre, &position)" % len(moves))
        for (b, i, ev) in moves:
            a0, a1 = ev["args"][0], ev["args"][1]
            # scalar: canonical sample or literal 1
            svars = local_refs(a0.get("refs", []))
            good_u = bool(svars) or a0.get("lit") == "1"
            for v in svars:
                for (_b, _i, d) in f.reaching_defs(v, (b, i)):
                    rhs = (d.get("rhs") or "")
                    calls = set(d.get("calls", []))
                    canon = all(c.startswith(C + "UniformRealDistribution::") for c in calls) and bool(calls)
                    if not canon or re.search(r"[*/+-]", re.sub(r"UniformRealDist\{\}|->", "", rhs.split("?")[-1]).replace("::", "")):
                        good_u = False
                        problems.append("the fraction `%s = %s` is not a canonical sample / 1" % (v, rhs))
            if not good_u and not problems:
                problems.append("the fraction `%s` is not a canonical sample / 1" % a0.get("t"))
            # vector: post - pre
            p1 = a1.get("path") or {}
            vec_ok = False
            if p1.get("root") == "this" and len(p1.get("chain", [])) == 1:
                mem = p1["chain"][0][2:]
                wsm = []
                for n_ in db.find("^" + re.escape(cls) + "::"):
                    for g in db.get(n_):
                        for (_b, _i, w) in g.events("write"):
                            if path_leaf(w.get("path")) == mem:
                                wsm.append(w)
                def post_minus_pre(g, w):
                    if POS not in w.get("refs", []) or set(w.get("calls", [])) != {C + "operator-"}:
                        return False
                    m_ = re.match(r"^\s*(\w+)\.pos\s*-\s*(\w+)\.pos\s*$", w.get("rhs", ""))
                    if not m_:
                        return False
                    pt = {}
                    for nm in (m_.group(1), m_.group(2)):
                        for (_b2, _i2, d2) in g.events("def"):
                            if d2.get("var") == nm:
                                pt[nm] = [r.split("::")[-1] for r in d2.get("refs", []) if r.startswith("E:celeritas::StepPoint::")]
                    return pt.get(m_.group(1)) == ["post"] and pt.get(m_.group(2)) == ["pre"]
                wsm2 = []
                for n_ in db.find("^" + re.escape(cls) + "::"):
                    for g in db.get(n_):
                        for (_b, _i, w) in g.events("write"):
                            if path_leaf(w.get("path")) == mem:
                                wsm2.append((g, w))
                vec_ok = bool(wsm2) and all(post_minus_pre(g, w) for g, w in wsm2)
                if not vec_ok:
                    problems.append("the displacement vector `%s` is not post.pos - pre.pos (%s)"
                                    % (a1.get("t"), [w.get("rhs") for w in wsm]))
            else:
                problems.append("cannot trace the displacement vector `%s`" % a1.get("t"))
        cx.ob("C20.5-on-segment", "%s: position = pre + u * (post - pre) with u in [0, 1]"
              % cls.split("::")[-1], not problems, "; ".join(problems), short(f.loc),
              why="any other construction (e.g. distance along the unit chord direction with the true "
                  "path length) places photons beyond the post-step point on curved steps")
