"""Shared helpers for rule modules (whole-program relations W1-W3 etc.)."""
import re
from cfg import path_leaf, path_fields

C = "celeritas::"


def short(loc):
    return ":".join(loc.split(":")[:2]) if loc else "?"


# --------------------------------------------------------------------------
# W1: who writes a field
# --------------------------------------------------------------------------
# callees that take forwarding / non-const references but only read their argument
READONLY_SINKS = ("celeritas::detail::LoggerMessage::operator<<", "std::operator<<",
                  "std::basic_ostream::operator<<", "celeritas::repr", "std::forward", "std::move",
                  "celeritas::forward", "celeritas::move", "std::min", "std::max")


def field_writers(db, field, accessors=(), skip_path=None):
    """All (Func, event, how) that write `field` (qualified `Rec::name`),
    directly, via a reference-returning accessor in `accessors`, or by handing
    a non-const pointer/reference of it to a callee."""
    leaves = set([field]) | set(accessors)
    out = []
    for f in db.all_funcs():
        for bid, i, ev in f.events():
            if ev["e"] == "write":
                p = ev.get("path")
                if p and path_leaf(p) in leaves and not (skip_path and skip_path(p)):
                    out.append((f, ev, "write"))
            elif ev["e"] == "call":
                if ev["callee"] in READONLY_SINKS:
                    continue
                for a in ev.get("args", []):
                    if a.get("mode") in ("ptr", "ref") and a.get("path"):
                        if path_leaf(a["path"]) in leaves and not (skip_path and skip_path(a["path"])):
                            out.append((f, ev, "arg:" + ev["callee"]))
    return out


def accessor_summary(db):
    """name -> leaf field for functions whose every return is an lvalue path
    ending in a field (reference-returning accessors)."""
    acc = {}
    for n, recs in db.funcs.items():
        for r in recs:
            if "&" not in r.get("ret", ""):
                continue
            leafs = set()
            ok = True
            for b in r["blocks"]:
                for ev in b["ev"]:
                    if ev["e"] == "return":
                        p = ev.get("path")
                        if not p:
                            ok = False
                        else:
                            leafs.add(path_leaf(p))
            if ok and len(leafs) == 1 and None not in leafs:
                acc[n] = leafs.pop()
    return acc


def _helper_of_owner(db, name, owners, depth=2, seen=None):
    """`name` is a private helper of an owner: it has callers in the parsed program and every
    one of them is an owner (or, recursively, such a helper).  This keeps the ownership rules
    silent when a write is moved into a helper function called only by its owner."""
    if db is None or depth < 0:
        return False
    seen = seen or set()
    if name in seen:
        return False
    seen.add(name)
    callers = set()
    for f in db.all_funcs():
        for (_b, _i, ev) in f.events():
            if ev["e"] in ("call", "lambda") and ev["callee"] == name:
                callers.add(f.name)
    callers.discard(name)
    if not callers:
        return False
    return all(owner_match(c, owners) or _helper_of_owner(db, c, owners, depth - 1, seen)
               for c in callers)


def check_owners(cx, rule, what, found, owners, why, get_name=lambda f: f.name, db=None):
    """found: list of (Func, ev, how). owners: set of allowed function names
    (regexes allowed when they start with '^').  With db given, a function all of whose
    callers are owners is accepted as the owner's helper."""
    names = {}
    for f, ev, how in found:
        names.setdefault(get_name(f), []).append((f, ev, how))
    bad = 0
    for n, sites in sorted(names.items()):
        ok = owner_match(n, owners) or _helper_of_owner(db, n, owners)
        f, ev, how = sites[0]
        cx.ob(rule, "%s <- %s" % (what, n), ok,
              detail=("%s of %s at %s (%s)" % (how, what, short(ev.get("loc")), f.inst))
              if not ok else "%d site(s)" % len(sites),
              where=short(ev.get("loc")), why=why)
        if not ok:
            bad += 1
    return names


def owner_match(name, owners):
    for o in owners:
        if o.startswith("^"):
            if re.search(o, name):
                return True
        elif o == name:
            return True
    return False


# --------------------------------------------------------------------------
# step actions and their order
# --------------------------------------------------------------------------
def step_actions(db):
    """{class: {'order': enumerator or None, 'step': [Func...]}} for every class
    that defines step(CoreParams const&, CoreState<..>&)."""
    out = {}
    for n, recs in db.funcs.items():
        if not n.endswith("::step"):
            continue
        for f in db.get(n):
            ps = f.r.get("params", [])
            if len(ps) != 2:
                continue
            if "CoreParams" not in ps[0]["ty"] or "CoreState" not in ps[1]["ty"]:
                continue
            cls = f.r.get("cls")
            if not cls:
                continue
            out.setdefault(cls, {"order": None, "step": []})["step"].append(f)
    for cls, d in out.items():
        for f in db.get(cls + "::order"):
            for _b, _i, ev in f.events("return"):
                if ev.get("enum"):
                    d["order"] = ev["enum"].split("::")[-1]
    return out


def ev_refs(ev):
    return set(ev.get("refs", []))


def arg_refs(ev, i=0):
    a = ev.get("args", [])
    if i >= len(a):
        return set()
    return set(a[i].get("refs", []))


def arg_calls(ev, i=0):
    a = ev.get("args", [])
    if i >= len(a):
        return set()
    return set(a[i].get("calls", []))


def local_refs(refs):
    return set(r for r in refs if not r.startswith(("E:", "F:")) and r != "this")


PURE = {C + "Quantity::value", C + "value_as", C + "native_value_from", C + "zero_quantity",
        C + "max_quantity"}


def is_pure_call(name):
    parts = name.split("::")
    if len(parts) >= 2 and parts[-1] == parts[-2]:
        return True   # constructor / conversion
    return name in PURE


def same_value_args(a1, a2):
    """Two call arguments denote the same value: same normalised text, same
    referenced variables, only pure conversions applied."""
    if a1.get("t") != a2.get("t"):
        return False
    if set(a1.get("refs", [])) != set(a2.get("refs", [])):
        return False
    c1, c2 = set(a1.get("calls", [])), set(a2.get("calls", []))
    return c1 == c2 and all(is_pure_call(c) for c in c1)


def resolve_leaf(leaf, acc, depth=4):
    while depth and leaf in acc:
        leaf = acc[leaf]
        depth -= 1
    return leaf


def trans_writes(db, func, acc, depth=3, follow=None):
    """Leaf fields written by `func` (a Func) or by callees up to `depth`
    (callee pattern names filtered by follow(name) when given).  Passing a
    non-const pointer/reference of a path to a callee counts as a write."""
    out = {}
    seen = set()

    def visit(f, d, chain):
        key = f.node
        if key in seen:
            return
        seen.add(key)
        for (_b, _i, ev) in f.events():
            if ev["e"] == "write":
                lf = path_leaf(ev.get("path"))
                if lf:
                    out.setdefault(resolve_leaf(lf, acc), chain + [short(ev.get("loc"))])
            elif ev["e"] == "call":
                for a in ev.get("args", []):
                    if a.get("mode") in ("ptr", "ref") and a.get("path"):
                        lf = path_leaf(a["path"])
                        if lf:
                            out.setdefault(resolve_leaf(lf, acc), chain + [short(ev.get("loc"))])
                if d > 0:
                    cal = ev["callee"]
                    if follow is not None and not follow(cal):
                        continue
                    node = ev.get("inst", cal) + ev.get("sig", "")
                    for g in db.get(cal):
                        if g.node == node:
                            visit(g, d - 1, chain + [cal.split("::")[-1]])
    visit(func, depth, [])
    return out
