"""Self-test entries for C12.7-ray-consistency (same format as selftest/mutants.py: id, prop,
file/old/new or edits=[(file, old, new[, "all"])...], expect = substring of the FAILS line that
must appear (rule id and class), or "ANALYSIS" for exit 2, benign=True for rewrites that must stay
silent).

Every mutant still compiles (the extractor parses the unit; a unit that fails to parse is exit 2).
Each was applied, one at a time, to a scratch worktree (`git -C /repo worktree add --detach
/tmp/c12wt HEAD`) and run with
`VERIF_REPO=/tmp/c12wt VERIF_EVIDENCE_DIR=/tmp/c12ev VERIF_OUT_DIR=/tmp/c12out bin/check C12`."""
S = "src/orange/surf/"
GQ, SQ, SP, SC = S + "GeneralQuadric.hh", S + "SimpleQuadric.hh", S + "Sphere.hh", S + "SphereCentered.hh"
CA, CC, KA, PL, PA = S + "CylAligned.hh", S + "CylCentered.hh", S + "ConeAligned.hh", S + "Plane.hh", \
    S + "PlaneAligned.hh"
R = "rule C12.7-ray-consistency instance "
RAY = ": coefficients of the ray equation"
DIST = ": the intersection distance"
NRM = ": calc_normal is a positive multiple"

MUTANTS_C12RAY = [
    # ---------------------------------------------------------------- GeneralQuadric
    dict(id="c12ray-gq-b-swap-ef", prop="C12", file=GQ,
         old="+ (2 * c_ * z + e_ * y + f_ * x + i_) * w;",
         new="+ (2 * c_ * z + f_ * y + e_ * x + i_) * w;", expect=R + "GeneralQuadric" + RAY),
    dict(id="c12ray-gq-b-drop-2", prop="C12", file=GQ,
         old="+ (2 * b_ * y + d_ * x + e_ * z + h_) * v\n",
         new="+ (b_ * y + d_ * x + e_ * z + h_) * v\n", expect=R + "GeneralQuadric" + RAY),
    dict(id="c12ray-gq-a-cross-term", prop="C12", file=GQ,
         old="+ (c_ * w + f_ * u) * w;", new="+ (c_ * w + f_ * v) * w;", expect=R + "GeneralQuadric" + RAY),
    dict(id="c12ray-gq-normal-drop-2", prop="C12", file=GQ,
         old="    norm[0] = 2 * a_ * x + d_ * y + f_ * z + g_;",
         new="    norm[0] = a_ * x + d_ * y + f_ * z + g_;", expect=R + "GeneralQuadric" + NRM),
    dict(id="c12ray-gq-sense-cross-term", prop="C12", file=GQ,
         old="    real_type result = (a_ * x + d_ * y + f_ * z + g_) * x\n"
             "                       + (b_ * y + e_ * z + h_) * y + (c_ * z + i_) * z + j_;",
         new="    real_type result = (a_ * x + d_ * y + e_ * z + g_) * x\n"
             "                       + (b_ * y + f_ * z + h_) * y + (c_ * z + i_) * z + j_;",
         expect=R + "GeneralQuadric"),
    # ---------------------------------------------------------------- SimpleQuadric
    dict(id="c12ray-sq-normal-sign", prop="C12", file=SQ,
         old="    Real3 norm{2 * a_ * x + d_, 2 * b_ * y + e_, 2 * c_ * z + f_};",
         new="    Real3 norm{2 * a_ * x + d_, 2 * b_ * y - e_, 2 * c_ * z + f_};",
         expect=R + "SimpleQuadric" + NRM),
    dict(id="c12ray-sq-b-not-halved", prop="C12", file=SQ,
         old="solve_general(a, b / 2, c, on_surface)", new="solve_general(a, b, c, on_surface)",
         expect=R + "SimpleQuadric" + RAY),
    # ---------------------------------------------------------------- spheres
    dict(id="c12ray-sphere-c-no-radius", prop="C12", file=SP,
         old="        return solve_quadric(dot_product(tpos, tpos) - radius_sq_);",
         new="        return solve_quadric(dot_product(tpos, tpos));", expect=R + "Sphere" + RAY),
    dict(id="c12ray-sphere-halfb-untranslated", prop="C12", file=SP,
         old="detail::QuadraticSolver solve_quadric(real_type(1), dot_product(tpos, dir));",
         new="detail::QuadraticSolver solve_quadric(real_type(1), dot_product(pos, dir));",
         expect=R + "Sphere" + RAY),
    dict(id="c12ray-spherec-b-for-half-b", prop="C12", file=SC,
         old="detail::QuadraticSolver solve_quadric(real_type(1), dot_product(pos, dir));",
         new="detail::QuadraticSolver solve_quadric(real_type(1), 2 * dot_product(pos, dir));",
         expect=R + "SphereCentered" + RAY),
    dict(id="c12ray-sphere-normal-inward", prop="C12", file=SP,
         old="        Real3{pos[0] - origin_[0], pos[1] - origin_[1], pos[2] - origin_[2]});\n}",
         new="        Real3{origin_[0] - pos[0], origin_[1] - pos[1], origin_[2] - pos[2]});\n}",
         expect=R + "Sphere" + NRM),
    # ---------------------------------------------------------------- cylinders
    dict(id="c12ray-cyl-a-all-components", prop="C12", file=CA,
         old="    real_type const a = 1 - ipow<2>(dir[to_int(T)]);",
         new="    real_type const a = ipow<2>(dir[0]) + ipow<2>(dir[1]) + ipow<2>(dir[2]);",
         expect=R + "CylAligned<x>" + RAY),
    dict(id="c12ray-cyl-on-off-swapped", prop="C12", file=CA,
         old="    if (on_surface == SurfaceState::on)\n    {\n        // Solve degenerate case (c=0)\n",
         new="    if (on_surface == SurfaceState::off)\n    {\n        // Solve degenerate case (c=0)\n",
         expect=R + "CylAligned<y>" + RAY),
    dict(id="c12ray-cylc-normal-axis", prop="C12", file=CC,
         old="    norm[to_int(V)] = pos[to_int(V)];\n\n    return make_unit_vector(norm);",
         new="    norm[to_int(V)] = pos[to_int(V)];\n    norm[to_int(T)] = pos[to_int(T)];\n\n"
             "    return make_unit_vector(norm);", expect=R + "CylCentered<z>" + NRM),
    dict(id="c12ray-cylc-sense-wrong-axis", prop="C12", file=CC,
         old="    real_type const u = pos[to_int(U)];\n    real_type const v = pos[to_int(V)];\n\n"
             "    return real_to_sense(",
         new="    real_type const u = pos[to_int(T)];\n    real_type const v = pos[to_int(V)];\n\n"
             "    return real_to_sense(", expect=R + "CylCentered<x>"),
    # ---------------------------------------------------------------- cone
    dict(id="c12ray-cone-tsq-sign", prop="C12", file=KA,
         old="    real_type half_b = (-tsq_ * x * u) + (y * v) + (z * w);",
         new="    real_type half_b = (tsq_ * x * u) + (y * v) + (z * w);", expect=R + "ConeAligned<x>" + RAY),
    dict(id="c12ray-cone-normal-tsq-sign", prop="C12", file=KA,
         old="    norm[to_int(T)] *= -tsq_;", new="    norm[to_int(T)] *= tsq_;",
         expect=R + "ConeAligned<z>" + NRM),
    # ---------------------------------------------------------------- planes
    dict(id="c12ray-plane-sense-flipped", prop="C12", file=PL,
         old="    return real_to_sense(dot_product(normal_, pos) - d_);",
         new="    return real_to_sense(d_ - dot_product(normal_, pos));", expect=R + "Plane" + NRM),
    dict(id="c12ray-plane-dist-sign", prop="C12", file=PL,
         old="        real_type dist = (d_ - n_pos) / n_dir;",
         new="        real_type dist = (n_pos - d_) / n_dir;", expect=R + "Plane" + DIST),
    dict(id="c12ray-planealigned-wrong-component", prop="C12", file=PA,
         old="        real_type const n_pos = pos[to_int(T)];",
         new="        real_type const n_pos = pos[to_int(Axis::x)];", expect=R + "PlaneAligned<y>" + DIST),
    dict(id="c12ray-planealigned-normal-negative", prop="C12", file=PA,
         old="    norm[to_int(T)] = 1.;", new="    norm[to_int(T)] = -1.;", expect=R + "PlaneAligned<x>" + NRM),
    dict(id="c12ray-planealigned-normal-not-unit", prop="C12", file=PA,
         old="    norm[to_int(T)] = 1.;", new="    norm[to_int(T)] = 2.;", expect=R + "PlaneAligned<z>" + NRM),
    # ---------------------------------------------------------------- outside the vocabulary: exit 2
    dict(id="c12ray-sphere-sense-sqrt", prop="C12", file=SP,
         old="    return real_to_sense(dot_product(tpos, tpos) - radius_sq_);",
         new="    return real_to_sense(std::sqrt(dot_product(tpos, tpos)) - std::sqrt(radius_sq_));",
         expect="ANALYSIS"),
    # ---------------------------------------------------------------- benign rewrites: silent
    dict(id="benign-c12ray-gq-a-expanded", prop="C12", benign=True, file=GQ,
         old="    real_type a = (a_ * u + d_ * v) * u + (b_ * v + e_ * w) * v\n"
             "                  + (c_ * w + f_ * u) * w;",
         new="    real_type a = a_ * u * u + b_ * v * v + c_ * w * w + d_ * u * v + e_ * v * w\n"
             "                  + f_ * w * u;"),
    dict(id="benign-c12ray-gq-b-by-rows", prop="C12", benign=True, file=GQ,
         old="    real_type b = (2 * a_ * x + d_ * y + f_ * z + g_) * u\n"
             "                  + (2 * b_ * y + d_ * x + e_ * z + h_) * v\n"
             "                  + (2 * c_ * z + e_ * y + f_ * x + i_) * w;",
         new="    real_type b = 2 * (a_ * x * u + b_ * y * v + c_ * z * w);\n"
             "    b += d_ * (x * v + y * u);\n"
             "    b += e_ * (y * w + z * v) + f_ * (z * u + x * w);\n"
             "    b += g_ * u + h_ * v + i_ * w;"),
    dict(id="benign-c12ray-sphere-rename-local", prop="C12", benign=True,
         edits=[(SP, "tpos", "shifted", "all")]),
    dict(id="benign-c12ray-sphere-vector-subtraction", prop="C12", benign=True,
         edits=[(SP, '#include "corecel/math/ArrayUtils.hh"',
                 '#include "corecel/math/ArrayOperators.hh"\n#include "corecel/math/ArrayUtils.hh"'),
                (SP, "    Real3 tpos{pos[0] - origin_[0], pos[1] - origin_[1], pos[2] - origin_[2]};\n\n"
                     "    detail::QuadraticSolver",
                 "    Real3 const tpos = pos - origin_;\n\n    detail::QuadraticSolver")]),
    dict(id="benign-c12ray-cyl-helper-local", prop="C12", benign=True, file=CA,
         old="    detail::QuadraticSolver solve_quadric(\n        a, dir[to_int(U)] * u + dir[to_int(V)] * v);",
         new="    real_type const half_b = dir[to_int(U)] * u + dir[to_int(V)] * v;\n"
             "    detail::QuadraticSolver solve_quadric(a, half_b);"),
    dict(id="benign-c12ray-cylc-a-from-two-components", prop="C12", benign=True, file=CC,
         old="    real_type const a = 1 - ipow<2>(dir[to_int(T)]);",
         new="    real_type const a = ipow<2>(dir[to_int(U)]) + ipow<2>(dir[to_int(V)]);"),
    dict(id="benign-c12ray-cone-normal-loop-if", prop="C12", benign=True, file=KA,
         old="        norm[i] = pos[i] - origin_[i];\n    }\n    norm[to_int(T)] *= -tsq_;",
         new="        if (i != to_int(T))\n        {\n            norm[i] = pos[i] - origin_[i];\n        }\n"
             "        else\n        {\n            norm[i] = -tsq_ * (pos[i] - origin_[i]);\n        }\n    }"),
    dict(id="benign-c12ray-sq-equation-doubled", prop="C12", benign=True, file=SQ,
         old="solve_general(a, b / 2, c, on_surface)", new="solve_general(2 * a, b, 2 * c, on_surface)"),
    dict(id="benign-c12ray-sq-c-accumulated", prop="C12", benign=True, file=SQ,
         old="    real_type c = (a_ * x + d_) * x + (b_ * y + e_) * y + (c_ * z + f_) * z\n                  + g_;",
         new="    real_type c = g_;\n    c += a_ * ipow<2>(x) + d_ * x;\n    c += b_ * ipow<2>(y) + e_ * y;\n"
             "    c += c_ * ipow<2>(z) + f_ * z;"),
    dict(id="benign-c12ray-plane-both-negated", prop="C12", benign=True, file=PL,
         old="        real_type dist = (d_ - n_pos) / n_dir;",
         new="        real_type dist = (n_pos - d_) / -n_dir;"),
    dict(id="benign-c12ray-gq-normal-doubled", prop="C12", benign=True, file=GQ,
         old="    return make_unit_vector(norm);",
         new="    norm[0] *= 2;\n    norm[1] *= 2;\n    norm[2] *= 2;\n    return make_unit_vector(norm);"),
]


def _gq_gradient_helper(zrow):
    """GeneralQuadric refactored as in seeded/c12e: a private const helper `calc_gradient(pos)` feeds
    both the linear coefficient b and calc_normal; `zrow` is the third component of the helper."""
    return [
        (GQ, "  private:\n    // Second-order terms (a, b, c)\n",
             "  private:\n    inline CELER_FUNCTION Real3 calc_gradient(Real3 const& pos) const;\n\n"
             "    // Second-order terms (a, b, c)\n"),
        (GQ, "    real_type b = (2 * a_ * x + d_ * y + f_ * z + g_) * u\n"
             "                  + (2 * b_ * y + d_ * x + e_ * z + h_) * v\n"
             "                  + (2 * c_ * z + e_ * y + f_ * x + i_) * w;",
             "    Real3 const grad = this->calc_gradient(pos);\n"
             "    real_type b = grad[0] * u + grad[1] * v + grad[2] * w;"),
        (GQ, "CELER_FUNCTION Real3 GeneralQuadric::calc_normal(Real3 const& pos) const\n{\n",
             "CELER_FUNCTION Real3 GeneralQuadric::calc_normal(Real3 const& pos) const\n{\n"
             "    return make_unit_vector(this->calc_gradient(pos));\n}\n\n"
             "CELER_FUNCTION Real3 GeneralQuadric::calc_gradient(Real3 const& pos) const\n{\n"),
        (GQ, "    Real3 norm;\n"
             "    norm[0] = 2 * a_ * x + d_ * y + f_ * z + g_;\n"
             "    norm[1] = 2 * b_ * y + d_ * x + e_ * z + h_;\n"
             "    norm[2] = 2 * c_ * z + e_ * y + f_ * x + i_;\n\n"
             "    return make_unit_vector(norm);",
             "    return {2 * a_ * x + d_ * y + f_ * z + g_,\n"
             "            2 * b_ * y + d_ * x + e_ * z + h_,\n"
             "            " + zrow + "};"),
    ]


MUTANTS_C12RAY += [
    # the independently seeded change seeded/c12e (helper shared by b and the normal, e_/f_ swapped in
    # its z row) and the same refactoring done correctly: judged through the same-object call
    dict(id="c12ray-gq-gradient-helper-swap-ef", prop="C12",
         edits=_gq_gradient_helper("2 * c_ * z + e_ * x + f_ * y + i_"), expect=R + "GeneralQuadric" + RAY),
    dict(id="benign-c12ray-gq-gradient-helper", prop="C12", benign=True,
         edits=_gq_gradient_helper("2 * c_ * z + e_ * y + f_ * x + i_")),
]
