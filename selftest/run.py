#!/usr/bin/env python3
"""Checker self-test (not a registered check): applies one seeded mutant at a
time to a scratch worktree of /repo and requires the named check to fire with
the expected rule; benign refactorings must stay silent.

usage: selftest/run.py [-k substring] [--keep] [--tier quick|thorough]
"""
import argparse
import json
import os
import shutil
import subprocess
import sys

H = os.path.dirname(os.path.dirname(os.path.abspath(__file__)))
sys.path.insert(0, os.path.join(H, "selftest"))
from mutants import MUTANTS  # noqa: E402
for _m, _n in (("mutants_c15", "MUTANTS_C15"), ("mutants_c18", "MUTANTS_C18"), ("mutants_c12ray", "MUTANTS_C12RAY")):
    try:
        MUTANTS = MUTANTS + getattr(__import__(_m), _n)
    except ImportError:
        pass

WT = "/tmp/verif-selftest-wt-%d" % os.getpid()


def sh(cmd, **kw):
    return subprocess.run(cmd, shell=True, text=True, capture_output=True, **kw)


def main():
    ap = argparse.ArgumentParser()
    ap.add_argument("-k", default="")
    ap.add_argument("--tier", default="quick")
    ap.add_argument("--keep", action="store_true")
    a = ap.parse_args()
    sh("git -C /repo worktree remove --force %s" % WT)
    shutil.rmtree(WT, ignore_errors=True)
    r = sh("git -C /repo worktree add -f %s HEAD" % WT)
    if r.returncode:
        print(r.stderr)
        return 2
    env = dict(os.environ, VERIF_REPO=WT, VERIF_EVIDENCE_DIR="/tmp/verif-selftest-ev-%d" % os.getpid(),
               VERIF_OUT_DIR="/tmp/verif-selftest-out-%d" % os.getpid())
    res = []
    try:
        for m in MUTANTS:
            if a.k and not any(k_ in m["id"] or k_ == m["prop"] for k_ in a.k.split(",")):
                continue
            edits = m.get("edits") or [(m["file"], m["old"], m["new"])]
            ok_apply = True
            for ed in edits:
                fn, old, new = ed[0], ed[1], ed[2]
                p = os.path.join(WT, fn)
                s = open(p).read()
                if s.count(old) < 1:
                    ok_apply = False
                    break
                if len(ed) > 3 and ed[3] == "all":
                    import re as _re
                    s = _re.sub(r"\b%s\b" % _re.escape(old), new, s)
                else:
                    s = s.replace(old, new, 1)
                open(p, "w").write(s)
            if not ok_apply:
                res.append((m["id"], "MUTANT-DOES-NOT-APPLY", ""))
                print("%-34s %-12s %s" % res[-1])
                sh("git -C %s checkout -- ." % WT)
                continue
            verdicts = []
            for prop in m["prop"].split(","):
                r = subprocess.run([os.path.join(H, "bin/check"), prop, "--tier", a.tier],
                                   env=env, text=True, capture_output=True)
                out = r.stdout
                fired = [l for l in out.splitlines() if " FAILS " in l]
                if m.get("benign"):
                    good = r.returncode == 0
                else:
                    alts = m.get("expect", m["prop"].split(",")[0] + ".").split("|")
                    if "ANALYSIS" in alts:
                        good = r.returncode == 2
                    else:
                        good = r.returncode == 1 and any(x in l for l in fired for x in alts)
                verdicts.append((prop, good, r.returncode,
                                 (fired[0][:160] if fired else
                                  ((out.strip() or r.stderr.strip() or "?").splitlines()[-1][:160]))))
            sh("git -C %s checkout -- ." % WT)
            allgood = all(v[1] for v in verdicts)
            res.append((m["id"], "ok" if allgood else "MISSED" if not m.get("benign") else "FALSE-ALARM",
                        "; ".join("%s rc=%d %s" % (v[0], v[2], v[3]) for v in verdicts)))
            print("%-34s %-12s %s" % res[-1])
            sys.stdout.flush()
    finally:
        if not a.keep:
            sh("git -C /repo worktree remove --force %s" % WT)
            shutil.rmtree(WT, ignore_errors=True)
            shutil.rmtree("/tmp/verif-selftest-ev-%d" % os.getpid(), ignore_errors=True)
            shutil.rmtree("/tmp/verif-selftest-out-%d" % os.getpid(), ignore_errors=True)
    bad = [r for r in res if r[1] != "ok"]
    print("selftest: %d mutants, %d as expected, %d not" % (len(res), len(res) - len(bad), len(bad)))
    with open(os.path.join(H, "selftest", "last_result%s.json" % ("-" + a.k.replace(",", "+")[:60] if a.k else "")), "w") as f:
        json.dump([{"id": r[0], "verdict": r[1], "detail": r[2]} for r in res], f, indent=1)
    return 1 if bad else 0


if __name__ == "__main__":
    sys.exit(main())
