"""Self-test entries for property C18 (same format as selftest/mutants.py: id, prop,
file/old/new or edits=[(file, old, new[, "all"])...], expect = substring of the rule that must fire
(or "ANALYSIS" for exit 2), benign=True for rewrites that must stay silent).

Every mutant still compiles; each was applied to a scratch worktree and run with
`VERIF_REPO=<wt> bin/check C18` (quick tier)."""
AI = "src/corecel/math/detail/AlgorithmsImpl.hh"
A = "src/corecel/math/Algorithms.hh"

MUTANTS_C18 = [
    # ------------------------------------------------------------------ heap sort
    dict(id="c18-siftdown-right-child-le", prop="C18", file=AI,
         old="    if ((child + 1) < len && comp(*child_i, *(child_i + difference_type(1))))\n"
             "    {\n        // Right-child exists and is greater than left-child\n"
             "        ++child_i;\n        ++child;\n    }\n\n    if (comp(*child_i, *start))",
         new="    if ((child + 1) <= len && comp(*child_i, *(child_i + difference_type(1))))\n"
             "    {\n        // Right-child exists and is greater than left-child\n"
             "        ++child_i;\n        ++child;\n    }\n\n    if (comp(*child_i, *start))",
         expect="C18.2-sort"),
    dict(id="c18-siftdown-parent-le", prop="C18", file=AI,
         old="    if (len < 2 || (len - 2) / 2 < child)",
         new="    if (len < 2 || (len - 2) / 2 <= child)", expect="C18.2-sort"),
    dict(id="c18-siftdown-loop-break-le", prop="C18", file=AI,
         old="        if ((len - 2) / 2 < child)\n            break;",
         new="        if ((len - 2) / 2 <= child)\n            break;", expect="C18.2-sort"),
    dict(id="c18-siftdown-no-restore-top", prop="C18", file=AI,
         old="    } while (!comp(*child_i, top));\n    *start = trivial_move(top);",
         new="    } while (!comp(*child_i, top));", expect="C18.2-sort"),
    dict(id="c18-sort-heap-n2", prop="C18", file=AI,
         old="n > 1; --last, (void)--n)", new="n > 2; --last, (void)--n)", expect="C18.2-sort"),
    dict(id="c18-make-heap-start", prop="C18", file=AI,
         old="start = (n - 2) / 2; start >= 0; --start)",
         new="start = (n - 2) / 2 - 1; start >= 0; --start)", expect="C18.2-sort"),
    dict(id="c18-pop-heap-len", prop="C18", file=AI,
         old="            first, last, comp, len - 1, first);",
         new="            first, last, comp, len, first);", expect="C18.2-sort"),
    dict(id="c18-partial-sort-heap-whole", prop="C18", file=AI,
         old="    ::celeritas::detail::sort_heap<Compare>(first, middle, comp);",
         new="    ::celeritas::detail::sort_heap<Compare>(first + 1, middle, comp);",
         expect="C18.2-sort"),
    dict(id="c18-trivial-swap-loses-element", prop="C18", file=A,
         old="    b = ::celeritas::move(temp);", new="    b = ::celeritas::move(a);",
         expect="C18.2-sort|C18.3-partition"),
    # ------------------------------------------------------------------ searches
    dict(id="c18-upper-bound-not-comp", prop="C18", file=AI,
         old="        if (comp(value_, *m))\n        {\n            len = half_len;",
         new="        if (!comp(*m, value_))\n        {\n            len = half_len;",
         expect="C18.4-search"),
    dict(id="c18-lower-bound-len-no-plus-one", prop="C18", file=AI,
         old="            first = ++m;\n            len -= half_len + 1;\n        }\n        else\n"
             "            len = half_len;",
         new="            first = ++m;\n            len -= half_len;\n        }\n        else\n"
             "            len = half_len;",
         expect="C18.4-search"),
    dict(id="c18-lower-bound-linear-upper", prop="C18", file=AI,
         old="        if (!comp(*it, value_))", new="        if (comp(value_, *it))",
         expect="C18.4-search"),
    dict(id="c18-find-sorted-no-equality", prop="C18", file=A,
         old="    if (iter == last || comp(*iter, value) || comp(value, *iter))",
         new="    if (iter == last)", expect="C18.4-search"),
    dict(id="c18-find-sorted-drops-comparator", prop="C18", file=A,
         old="    auto iter = ::celeritas::lower_bound(first, last, value, comp);",
         new="    auto iter = ::celeritas::lower_bound(first, last, value);",
         expect="C18.4-search"),
    dict(id="c18-upper-bound-wrapper-calls-lower", prop="C18", file=A,
         old="    return ::celeritas::detail::upper_bound_impl<CompareRef>(",
         new="    return ::celeritas::detail::lower_bound_impl<CompareRef>(",
         expect="C18.4-search"),
    # ------------------------------------------------------------------ partition / min / quantifiers
    dict(id="c18-partition-no-advance", prop="C18", file=AI,
         old="            if (!pred(*first))\n                break;\n            ++first;\n",
         new="            if (!pred(*first))\n                break;\n", expect="C18.3-partition"),
    dict(id="c18-partition-post-decrement", prop="C18", file=AI,
         old="            if (first == --last)", new="            if (first == last--)",
         expect="C18.3-partition"),
    dict(id="c18-min-element-last-of-equal", prop="C18", file=A,
         old="        if (comp(*iter, *result))", new="        if (!comp(*result, *iter))",
         expect="C18.5-min-element"),
    dict(id="c18-all-adjacent-stale-prev", prop="C18", file=A,
         old="            return false;\n        prev = *iter++;", new="            return false;\n        ++iter;",
         expect="C18.6-quantifiers"),
    dict(id="c18-any-of-default-true", prop="C18", file=A,
         old="        if (p(*iter))\n            return true;\n    }\n    return false;",
         new="        if (p(*iter))\n            return true;\n    }\n    return iter == last;",
         expect="C18.6-quantifiers"),
    # ------------------------------------------------------------------ analysis broken, not a verdict
    dict(id="c18-lower-bound-builtin-less", prop="C18", file=AI,
         old="        if (comp(*m, value_))\n        {\n            first = ++m;",
         new="        if (*m < value_)\n        {\n            first = ++m;", expect="ANALYSIS"),
    # behaviour-preserving, but std::swap has no interpreted body: exit 2, never a pass
    dict(id="c18-std-swap-outside-vocabulary", prop="C18", file=AI,
         old="        trivial_swap(*first, *last);\n        ++first;",
         new="        std::swap(*first, *last);\n        ++first;", expect="ANALYSIS"),
    # ------------------------------------------------------------------ benign / equivalent
    dict(id="benign-c18-rename-local", prop="C18", benign=True,
         edits=[(AI, "half_len", "hl", "all")]),
    dict(id="benign-c18-len-gt-zero", prop="C18", benign=True, file=AI,
         old="    while (len != 0)", new="    while (len > 0)"),
    dict(id="benign-c18-for-ever", prop="C18", benign=True, file=AI,
         old="    while (true)\n    {\n        while (true)", new="    for (;;)\n    {\n        while (true)"),
    dict(id="benign-c18-split-preincrement", prop="C18", benign=True, file=AI,
         old="            first = ++m;\n            len -= half_len + 1;\n        }\n        else\n",
         new="            ++m;\n            first = m;\n            len -= half_len + 1;\n        }\n        else\n"),
    dict(id="benign-c18-partition-redundant-advance", prop="C18", benign=True, file=AI,
         old="        trivial_swap(*first, *last);\n        ++first;\n",
         new="        trivial_swap(*first, *last);\n"),
    dict(id="benign-c18-flip-comparison", prop="C18", benign=True, file=AI,
         old="        if ((len - 2) / 2 < child)\n            break;",
         new="        if (child > (len - 2) / 2)\n            break;"),
    dict(id="benign-c18-min-element-split-postincrement", prop="C18", benign=True, file=A,
         old="    ForwardIt result = iter++;", new="    ForwardIt result = iter;\n    ++iter;"),
    dict(id="benign-c18-sort-heap-no-void-cast", prop="C18", benign=True, file=AI,
         old="--last, (void)--n)", new="--last, --n)"),
    dict(id="benign-c18-bisect-at-a-third", prop="C18", benign=True, file=AI,
         old="        static_cast<typename std::make_unsigned<Integral>::type>(value) / 2);",
         new="        static_cast<typename std::make_unsigned<Integral>::type>(value) / 3);"),
    dict(id="benign-c18-subscript-and-shift", prop="C18", benign=True, file=AI,
         edits=[(AI, "    child = 2 * child + 1;\n    RandomAccessIt child_i = first + child;",
                 "    child = (child << 1) + 1;\n    RandomAccessIt child_i = &first[child];")]),
    dict(id="benign-c18-add-expect", prop="C18", benign=True, file=A,
         old="    // Avoid incrementing past the end\n    if (iter == last)",
         new="    CELER_EXPECT(!(last < iter));\n    // Avoid incrementing past the end\n    if (iter == last)"),
    dict(id="benign-c18-const-local", prop="C18", benign=True, file=AI,
         old="        ForwardIterator m = first + half_len;\n        if (comp(value_, *m))",
         new="        ForwardIterator const mid = first + half_len;\n        ForwardIterator m = mid;\n"
             "        if (comp(value_, *m))"),
    dict(id="benign-c18-sort-heap-while", prop="C18", benign=True, file=AI,
         old="    for (difference_type n = last - first; n > 1; --last, (void)--n)\n    {\n"
             "        ::celeritas::detail::pop_heap<Compare>(first, last, comp, n);\n    }",
         new="    difference_type n = last - first;\n    while (n > 1)\n    {\n"
             "        ::celeritas::detail::pop_heap<Compare>(first, last, comp, n);\n"
             "        --last;\n        --n;\n    }"),
    # equivalent for the result: an element equal to its largest child is not sifted
    dict(id="benign-c18-siftdown-ties-stay", prop="C18", benign=True, file=AI,
         old="    if (comp(*child_i, *start))\n    {\n        // We are in heap order",
         new="    if (!comp(*start, *child_i))\n    {\n        // We are in heap order"),
    # ------------------------------------------------------------------ second batch of mutants
    dict(id="c18-heapsort-empty-heap", prop="C18", file=AI,
         old="    ::celeritas::detail::partial_sort<Compare>(first, last, last, comp);",
         new="    ::celeritas::detail::partial_sort<Compare>(first, first, last, comp);",
         expect="C18.2-sort"),
    dict(id="c18-partial-sort-loop-comparison", prop="C18", file=AI,
         old="        if (comp(*i, *first))\n        {\n            trivial_swap(*i, *first);",
         new="        if (comp(*first, *i))\n        {\n            trivial_swap(*i, *first);",
         expect="C18.2-sort"),
    dict(id="c18-siftdown-picks-smaller-child", prop="C18", file=AI,
         old="        if ((child + 1) < len\n            && comp(*child_i, *(child_i + difference_type(1))))",
         new="        if ((child + 1) < len\n            && comp(*(child_i + difference_type(1)), *child_i))",
         expect="C18.2-sort"),
    # Looks like a bug (the last right child is ignored inside the sift loop) but is an
    # equivalent mutant for sort(): the only heap violation it can leave is at the last
    # position, which is the next element swapped to the root and re-sifted, and in make_heap
    # that element stays below its former ancestors.  A plain-Python re-implementation sorts
    # every sequence of length <= 8 correctly; the check is silent, as it must be.
    dict(id="benign-c18-siftdown-ignores-last-right-child", prop="C18", benign=True, file=AI,
         old="        if ((child + 1) < len\n            && comp(*child_i, *(child_i + difference_type(1))))",
         new="        if ((child + 2) < len\n            && comp(*child_i, *(child_i + difference_type(1))))"),
]
