#!/usr/bin/env python3
"""Merge the per-run result files (selftest/last_result*.json, newest wins) into RESULTS.md."""
import glob, json, os, sys
H = os.path.dirname(os.path.abspath(__file__))
sys.path.insert(0, H)
from mutants import MUTANTS
res = {}
for f in sorted(glob.glob(H + "/last_result*.json"), key=os.path.getmtime):
    for r in json.load(open(f)):
        res[r["id"]] = r
rows = []
n_ok = n_bad = n_missing = 0
for m in MUTANTS:
    r = res.get(m["id"])
    kind = "benign (must stay silent)" if m.get("benign") else "must fire `%s`" % m.get("expect")
    if r is None:
        verdict, detail = "not run yet", ""
        n_missing += 1
    else:
        verdict = r["verdict"]
        detail = r["detail"][:140].replace("|", "/")
        if verdict == "ok":
            n_ok += 1
        else:
            n_bad += 1
    files = sorted(set(e[0] for e in (m.get("edits") or [(m.get("file"),)]) if e[0]))
    rows.append("| %s | %s | %s | %s | %s | %s |" % (m["id"], m["prop"], ", ".join(x.split("/")[-1] for x in files),
                                                   kind, verdict, detail))
with open(H + "/RESULTS.md", "w") as f:
    f.write("# Checker self-test: seeded mutants and benign refactorings\n\n"
            "%d entries; %d behaved as expected, %d did not, %d not run since they were added. "
            "Each entry is applied to a scratch worktree of /repo and the named check(s) are run "
            "(`selftest/run.py -k <id>`).\n\n| id | check(s) | file(s) | expectation | outcome | first line of the report |\n"
            "|---|---|---|---|---|---|\n" % (len(MUTANTS), n_ok, n_bad, n_missing))
    f.write("\n".join(rows) + "\n")
print(len(MUTANTS), "entries:", n_ok, "ok,", n_bad, "bad,", n_missing, "missing")
