// Replay of the C07 finding with ThreadSanitizer: two streams call the real
// ActionDiagnostic::begin_run concurrently (as every Stepper constructor does).
#include <chrono>
#include <thread>

#include "celeritas/user/ActionDiagnostic.cc"  // instrumented copy of the unit

#include "celeritas/SimpleTestBase.hh"
#include "celeritas/global/CoreParams.hh"
#include "celeritas/global/CoreState.hh"

#include "celeritas_test.hh"

namespace celeritas
{
namespace test
{
class ReplayC07 : public SimpleTestBase
{
};

TEST_F(ReplayC07, concurrent_begin_run)
{
    auto diag = ActionDiagnostic::make_and_insert(*this->core());
    CoreState<MemSpace::host> state{*this->core(), StreamId{0}, 4};
    auto const& params = *this->core();
    std::thread a([&] { diag->begin_run(params, state); });
    std::thread b([&] {
        std::this_thread::sleep_for(std::chrono::milliseconds(200));
        diag->begin_run(params, state);
    });
    a.join();
    b.join();
    EXPECT_TRUE(true);
}
}  // namespace test
}  // namespace celeritas
