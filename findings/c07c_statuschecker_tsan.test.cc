// Replay of the C07.1-begin-run-writes finding with ThreadSanitizer: two streams call the real
// StatusChecker::begin_run concurrently (as the Stepper constructors of two streams do).
#include <chrono>
#include <thread>

#include "celeritas/track/StatusChecker.cc"  // instrumented copy of the unit

#include "celeritas/SimpleTestBase.hh"
#include "celeritas/global/CoreParams.hh"
#include "celeritas/global/CoreState.hh"
#include "corecel/sys/ActionRegistry.hh"
#include "corecel/data/AuxParamsRegistry.hh"

#include "celeritas_test.hh"

namespace celeritas
{
namespace test
{
class ReplayC07c : public SimpleTestBase
{
};

TEST_F(ReplayC07c, concurrent_begin_run)
{
    auto const& params = *this->core();
    // The test problem already registers the status checker (as celer-sim does when the
    // "status_checker" option is set): take the shared action object out of the registry
    auto const& reg = *params.action_reg();
    auto checker = std::dynamic_pointer_cast<StatusChecker>(
        std::const_pointer_cast<ActionInterface>(reg.action(reg.find_action("status-check"))));
    ASSERT_TRUE(checker);
    CoreState<MemSpace::host> s0{params, StreamId{0}, 4};
    std::thread a([&] { checker->begin_run(params, s0); });
    std::thread b([&] {
        std::this_thread::sleep_for(std::chrono::milliseconds(100));
        checker->begin_run(params, s0);
    });
    a.join();
    b.join();
    EXPECT_TRUE(true);
}
}  // namespace test
}  // namespace celeritas
