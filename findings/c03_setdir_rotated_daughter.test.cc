//----------------------------------*-C++-*----------------------------------//
// Demonstration for property C03: changing direction while sitting on a
// curved boundary that belongs to a *translated daughter universe* must not
// desynchronise the reported volume from the actual position.
//
// Oracle: after (set_dir on boundary -> cross_boundary -> find_next_step ->
// move_internal), the volume reported by the navigating track is compared
// with the volume found by an independent, fresh point location
// (initialization in a second track slot) at the very same global position.
// The remaining distance-to-boundary is compared in the same way.
//---------------------------------------------------------------------------//
#include <cmath>
#include <iostream>
#include <string>
#include <vector>

#include "corecel/math/ArrayUtils.hh"
#include "geocel/Types.hh"
#include "orange/OrangeParams.hh"
#include "orange/OrangeTrackView.hh"

#include "OrangeGeoTestBase.hh"
#include "TestMacros.hh"
#include "celeritas_test.hh"

namespace celeritas
{
namespace test
{
//---------------------------------------------------------------------------//
class SetDirRotatedDaughterTest : public OrangeGeoTestBase
{
  public:
    size_type num_track_slots() const override { return 2; }
    real_type unit_length() const override { return 1; }

    void SetUp() final
    {
        // Global unit with a sphere "leaf1" (r=1) at (0,0,-5), and a daughter
        // universe "filled_daughter" placed with translation (0,0,-20) that
        // contains its own sphere "leaf1" (r=1) at local (0,0,-5), i.e. global
        // (0,0,-25), surrounded by a background volume.
        this->build_geometry("inputbuilder-hierarchy.org.json");
    }

    struct Outcome
    {
        std::string tracked;  //!< Volume reported by the navigating track
        std::string located;  //!< Volume from independent point location
        real_type tracked_next{};  //!< Distance to boundary (navigating)
        real_type located_next{};  //!< Distance to boundary (fresh init)
    };

    // Move from the sphere center to the sphere surface along +x, change
    // direction on the boundary, cross, take a small internal step, and
    // compare with an independent point location.
    Outcome run(Real3 const& center, Real3 const& startdir, Real3 newdir)
    {
        newdir = make_unit_vector(newdir);

        auto geo = this->make_geo_track_view(TrackSlotId{0});
        geo = Initializer_t{center, startdir};
        auto next = geo.find_next_step();
        EXPECT_TRUE(next.boundary);
        EXPECT_SOFT_EQ(1.0, next.distance);
        geo.move_to_boundary();
        EXPECT_TRUE(geo.is_on_boundary());

        // Scatter on the boundary, then complete the boundary crossing
        geo.set_dir(newdir);
        geo.cross_boundary();

        // Take a short step strictly inside whatever volume we are now in
        next = geo.find_next_step();
        EXPECT_GT(next.distance, 0);
        real_type step = std::fmin(real_type(0.25), next.distance / 2);
        geo.move_internal(step);

        Outcome out;
        out.tracked = this->volume_name(geo);
        out.tracked_next = geo.find_next_step().distance;

        // Independent point location at the same global position
        auto fresh = this->make_geo_track_view(TrackSlotId{1});
        fresh = Initializer_t{geo.pos(), geo.dir()};
        out.located = this->volume_name(fresh);
        out.located_next = fresh.find_next_step().distance;
        return out;
    }

    void check_all(Real3 const& center, Real3 const& startdir,
                   std::vector<Real3> const& newdirs)
    {
        for (Real3 const& d : newdirs)
        {
            auto out = this->run(center, startdir, d);
            std::cout << "  newdir=(" << d[0] << "," << d[1] << "," << d[2]
                      << "): tracked volume '" << out.tracked
                      << "' (next " << out.tracked_next
                      << "), independent location '" << out.located
                      << "' (next " << out.located_next << ")"
                      << (out.tracked == out.located ? "" : "   <-- MISMATCH")
                      << std::endl;
            EXPECT_EQ(out.located, out.tracked)
                << "direction change on boundary desynchronised the volume "
                   "for new direction "
                << d[0] << "," << d[1] << "," << d[2];
            EXPECT_SOFT_EQ(out.located_next, out.tracked_next);
        }
    }
};

//---------------------------------------------------------------------------//
// Control: daughter "d1" (sphere r=1) placed in the global universe with a pure
// translation (0,5,0): leave it along +y; true outward normal (0,1,0)
TEST_F(SetDirRotatedDaughterTest, translated_daughter)
{
    this->check_all({0, 5, 0}, {0, 1, 0},
                    {{0, 0.6, 0.8}, {0, 0.6, -0.8}, {0, -0.6, 0.8}, {0, -0.6, -0.8}});
}

// Daughter "d2" (same sphere) placed with a quarter-turn rotation about x at
// (0,-5,0): leave it along +y; true outward normal (0,1,0)
TEST_F(SetDirRotatedDaughterTest, rotated_daughter)
{
    this->check_all({0, -5, 0}, {0, 1, 0},
                    {{0, 0.6, 0.8}, {0, 0.6, -0.8}, {0, -0.6, 0.8}, {0, -0.6, -0.8}});
}

//---------------------------------------------------------------------------//
}  // namespace test
}  // namespace celeritas
