//---------------------------------------------------------------------------//
// Replay for finding F11 (property C04, rule C04.8-momentum-closure).
// In-flight positron annihilation returns all products (two gammas), so
//   p(e+) * inc_dir == E1 * d1 + E2 * d2
// must hold for every sample.  EPlusGGInteractor computes d2 with
//   calc_exiting_direction({p, inc_dir}, {inc_energy, inc_dir})
// i.e. always +-inc_dir, whatever d1 was sampled.
// Built out of tree against /repo/_build (see findings/README.md).
//---------------------------------------------------------------------------//
#include <cmath>
#include <iostream>

#include "corecel/cont/Range.hh"
#include "corecel/math/ArrayUtils.hh"
#include "celeritas/Quantities.hh"
#include "celeritas/em/interactor/EPlusGGInteractor.hh"
#include "celeritas/phys/InteractorHostTestBase.hh"

#include "celeritas_test.hh"

namespace celeritas
{
namespace test
{
class EPlusGGMomentumReplay : public InteractorHostTestBase
{
  protected:
    void SetUp() override
    {
        auto const& params = *this->particle_params();
        data_.positron = params.find(pdg::positron());
        data_.gamma = params.find(pdg::gamma());
        data_.electron_mass = params.get(params.find(pdg::electron())).mass();
        this->set_inc_particle(pdg::positron(), units::MevEnergy{10});
        this->set_inc_direction({0, 0, 1});
        this->set_material("K");
    }
    EPlusGGData data_;
};

TEST_F(EPlusGGMomentumReplay, momentum_is_conserved)
{
    int const num_samples = 1000;
    int bad = 0;
    real_type worst = 0;
    for (real_type e : {0.01, 1.0, 10.0, 1000.0})
    {
        this->set_inc_particle(pdg::positron(), units::MevEnergy{e});
        this->resize_secondaries(num_samples * 2);
        EPlusGGInteractor interact(data_,
                                   this->particle_track(),
                                   this->direction(),
                                   this->secondary_allocator());
        real_type const m = data_.electron_mass.value();
        real_type const p_in = std::sqrt(e * (e + 2 * m));
        int parallel = 0;
        for ([[maybe_unused]] int i : range(num_samples))
        {
            Interaction result = interact(this->rng());
            ASSERT_EQ(2, result.secondaries.size());
            auto const& g1 = result.secondaries[0];
            auto const& g2 = result.secondaries[1];
            // energy balance (holds)
            EXPECT_SOFT_EQ(e + 2 * m, g1.energy.value() + g2.energy.value());
            Real3 resid;
            for (int k = 0; k < 3; ++k)
            {
                resid[k] = p_in * this->direction()[k]
                           - g1.energy.value() * g1.direction[k]
                           - g2.energy.value() * g2.direction[k];
            }
            real_type r = norm(resid) / p_in;
            worst = std::fmax(worst, r);
            if (r > 1e-6)
                ++bad;
            if (std::fabs(std::fabs(dot_product(g2.direction,
                                                this->direction()))
                          - 1)
                < 1e-12)
                ++parallel;
        }
        std::cout << "E=" << e << " MeV: second gamma exactly along +-incident in "
                  << parallel << " of " << num_samples << " samples\n";
    }
    std::cout << "momentum not conserved (relative residual > 1e-6) in " << bad
              << " samples; worst relative residual " << worst << "\n";
    EXPECT_EQ(0, bad);
}
}  // namespace test
}  // namespace celeritas
