//---------------------------------------------------------------------------//
// Replay for findings F12/F13 (C09, rules C09.1-zone-algebra / C09.2-box-helpers).
// gtest built inside a scratch worktree as test/orange/orangeinp/ZoneUnion.test.cc
// (one line added to test/orange/CMakeLists.txt:
//   celeritas_add_test(orangeinp/ZoneUnion.test.cc LINK_LIBRARIES nlohmann_json::nlohmann_json) )
//---------------------------------------------------------------------------//
#include <memory>
#include <string>
#include <vector>

#include "corecel/data/CollectionStateStore.hh"
#include "geocel/Types.hh"
#include "orange/OrangeData.hh"
#include "orange/OrangeInput.hh"
#include "orange/OrangeParams.hh"
#include "orange/OrangeTrackView.hh"
#include "orange/orangeinp/CsgObject.hh"
#include "orange/orangeinp/InputBuilder.hh"
#include "orange/orangeinp/Shape.hh"
#include "orange/orangeinp/Transformed.hh"
#include "orange/orangeinp/UnitProto.hh"
#include "orange/orangeinp/detail/BoundingZone.hh"

#include "celeritas_test.hh"

namespace celeritas
{
namespace orangeinp
{
namespace test
{
using SPConstObject = std::shared_ptr<ObjectInterface const>;

SPConstObject make_box(std::string label, real_type hw)
{
    return std::make_shared<BoxShape>(std::move(label), Box{Real3{hw, hw, hw}});
}

UnitProto::MaterialInput make_material(SPConstObject obj, unsigned int m)
{
    UnitProto::MaterialInput result;
    result.interior = std::move(obj);
    result.fill = GeoMaterialId{m};
    return result;
}

// Zone level: boxes that ARE their regions (interior == exterior)
TEST(ZoneUnion, zone_level)
{
    using detail::BoundingZone;
    BoundingZone a;  // A = [-1,1]^3
    a.interior = a.exterior = BBox{{-1, -1, -1}, {1, 1, 1}};
    BoundingZone b;  // B = [-2,2]^3
    b.interior = b.exterior = BBox{{-2, -2, -2}, {2, 2, 2}};
    BoundingZone nb = b;
    nb.negate();

    // S = A | ~B ; its complement is the shell B - A, which contains (1.5,0,0)
    BoundingZone u = calc_union(a, nb);
    ASSERT_TRUE(u.negated);
    // negate again: the zone of B - A; its exterior must enclose the shell
    u.negate();
    ASSERT_FALSE(u.negated);
    Real3 const p{1.5, 0, 0};
    EXPECT_TRUE(u.exterior && is_inside(u.exterior, p))
        << "exterior box of ~(A | ~B) = B - A does not contain the shell "
           "point (1.5,0,0): "
        << u.exterior;
    // and the point (0,0,0) (inside A, i.e. NOT in B - A) must not be 'known inside'
    EXPECT_FALSE(u.interior && is_inside(u.interior, Real3{0, 0, 0}))
        << "interior (known inside) box of B - A contains the origin: "
        << u.interior;
}

// Geometry level through the construction API
TEST(ZoneUnion, geometry_level)
{
    UnitProto global{[] {
        UnitProto::Input inp;
        inp.boundary.interior
            = std::make_shared<SphereShape>("bound", Sphere{10.0});
        inp.boundary.zorder = ZOrder::media;
        inp.label = "global";

        auto a = make_box("a", 1.0);
        // sphere of radius 1.1: its interior box lies inside a's box
        SPConstObject b = std::make_shared<SphereShape>("b", Sphere{1.1});
        // shell = ~(a | ~b) = b - a: the six caps of the sphere outside the cube
        auto u = std::make_shared<AnyObjects>(
            "u",
            std::vector<SPConstObject>{
                a, std::make_shared<NegatedObject>("notb", b)});
        auto shell = std::make_shared<NegatedObject>("shell", u);
        inp.materials.push_back(make_material(shell, 1));
        inp.materials.push_back(make_material(a, 2));
        // two more finite volumes so that the bounding-interval hierarchy has
        // something to partition
        SPConstObject c1 = std::make_shared<Transformed>(
            make_box("c1", 0.5), Translation{Real3{3, 0, 0}});
        SPConstObject c2 = std::make_shared<Transformed>(
            make_box("c2", 0.5), Translation{Real3{-3, 0, 0}});
        inp.materials.push_back(make_material(c1, 4));
        inp.materials.push_back(make_material(c2, 5));
        // everything else: inside the boundary and outside b, c1, c2
        inp.materials.push_back(make_material(
            std::make_shared<AllObjects>(
                "rest",
                std::vector<SPConstObject>{
                    inp.boundary.interior,
                    std::make_shared<NegatedObject>("notb2", b),
                    std::make_shared<NegatedObject>("notc1", c1),
                    std::make_shared<NegatedObject>("notc2", c2)}),
            3));
        return inp;
    }()};

    InputBuilder build_input([] {
        InputBuilder::Options opts;
        opts.tol = Tolerance<>::from_relative(1e-5);
        return opts;
    }());
    OrangeInput inp = build_input(global);
    ASSERT_TRUE(inp);
    for (auto const& u : inp.universes)
    {
        if (auto const* unit = std::get_if<UnitInput>(&u))
        {
            for (auto i : range(unit->volumes.size()))
            {
                std::cout << "volume " << unit->volumes[i].label << " bbox "
                          << unit->volumes[i].bbox << std::endl;
            }
        }
    }
    OrangeParams params(std::move(inp));

    CollectionStateStore<OrangeStateData, MemSpace::host> state(
        params.host_ref(), 1);
    auto locate = [&](Real3 const& pos) -> std::string {
        OrangeTrackView geo(params.host_ref(), state.ref(), TrackSlotId{0});
        geo = GeoTrackInitializer{pos, Real3{0, 0, 1}};
        if (geo.is_outside())
            return "[OUTSIDE]";
        return params.id_to_label(geo.volume_id()).name;
    };

    EXPECT_EQ("a", locate({0.5, 0, 0}));
    EXPECT_EQ("rest", locate({5, 0, 0}));
    // b - a contains (1.05, 0, 0) and (0, -1.05, 0.1)
    EXPECT_EQ("shell", locate({1.05, 0, 0}));
    EXPECT_EQ("shell", locate({0, -1.05, 0.1}));
}

// F12: calc_difference(shrink) returns the hole as 'known inside'
TEST(ZoneUnion, difference_hole)
{
    UnitProto global{[] {
        UnitProto::Input inp;
        inp.boundary.interior
            = std::make_shared<SphereShape>("bound", Sphere{10.0});
        inp.boundary.zorder = ZOrder::media;
        inp.label = "global";

        auto p = make_box("p", 3.0);
        auto q = make_box("q", 2.0);
        auto a = make_box("a", 1.0);
        // frame = p - q (a box with a hole)
        auto frame = std::make_shared<AllObjects>(
            "frame",
            std::vector<SPConstObject>{
                p, std::make_shared<NegatedObject>("notq", q)});
        // w = a - frame = a (a sits in the hole)
        auto w = std::make_shared<AllObjects>(
            "w",
            std::vector<SPConstObject>{
                a, std::make_shared<NegatedObject>("notframe", frame)});
        SPConstObject z = std::make_shared<Transformed>(
            make_box("z", 0.5), Translation{Real3{5, 0, 0}});
        // v = w | z : the unit cube at the origin plus a small box at x = 5
        auto v = std::make_shared<AnyObjects>(
            "v", std::vector<SPConstObject>{w, z});
        inp.materials.push_back(make_material(v, 1));
        inp.materials.push_back(make_material(frame, 2));
        SPConstObject c2 = std::make_shared<Transformed>(
            make_box("c2", 0.5), Translation{Real3{-5, 0, 0}});
        inp.materials.push_back(make_material(c2, 5));
        inp.background.fill = GeoMaterialId{3};
        return inp;
    }()};

    InputBuilder build_input([] {
        InputBuilder::Options opts;
        opts.tol = Tolerance<>::from_relative(1e-5);
        return opts;
    }());
    OrangeInput inp = build_input(global);
    ASSERT_TRUE(inp);
    for (auto const& u : inp.universes)
    {
        if (auto const* unit = std::get_if<UnitInput>(&u))
        {
            for (auto i : range(unit->volumes.size()))
            {
                std::cout << "volume " << unit->volumes[i].label << " bbox "
                          << unit->volumes[i].bbox << std::endl;
            }
        }
    }
    OrangeParams params(std::move(inp));
    CollectionStateStore<OrangeStateData, MemSpace::host> state(
        params.host_ref(), 1);
    auto locate = [&](Real3 const& pos) -> std::string {
        OrangeTrackView geo(params.host_ref(), state.ref(), TrackSlotId{0});
        geo = GeoTrackInitializer{pos, Real3{0, 0, 1}};
        if (geo.is_outside())
            return "[OUTSIDE]";
        return params.id_to_label(geo.volume_id()).name;
    };
    EXPECT_EQ("v", locate({5, 0, 0}));
    EXPECT_EQ("frame", locate({2.5, 0, 0}));
    // the origin is in a, hence in w, hence in v
    EXPECT_EQ("v", locate({0, 0, 0}));
    EXPECT_EQ("v", locate({0.3, -0.4, 0.2}));
}

// F14: SurfaceClipper gives a sphere an interior box of half-width sqrt(3)/2 r
// (corners at distance 1.5 r): a box near a corner of that cube lies OUTSIDE the
// sphere but "inside its known-inside box"
TEST(ZoneUnion, sphere_interior)
{
    UnitProto global{[] {
        UnitProto::Input inp;
        inp.boundary.interior
            = std::make_shared<SphereShape>("bound", Sphere{10.0});
        inp.boundary.zorder = ZOrder::media;
        inp.label = "global";

        SPConstObject s = std::make_shared<SphereShape>("s", Sphere{1.0});
        SPConstObject a = std::make_shared<Transformed>(
            make_box("a", 0.1), Translation{Real3{0.75, 0.75, 0.75}});
        // w = a - s = a (a is entirely outside the unit sphere)
        auto w = std::make_shared<AllObjects>(
            "w",
            std::vector<SPConstObject>{
                a, std::make_shared<NegatedObject>("nots", s)});
        SPConstObject z = std::make_shared<Transformed>(
            make_box("z", 0.5), Translation{Real3{5, 0, 0}});
        auto v = std::make_shared<AnyObjects>(
            "v", std::vector<SPConstObject>{w, z});
        inp.materials.push_back(make_material(v, 1));
        inp.materials.push_back(make_material(s, 2));
        SPConstObject c2 = std::make_shared<Transformed>(
            make_box("c2", 0.5), Translation{Real3{-5, 0, 0}});
        inp.materials.push_back(make_material(c2, 5));
        inp.background.fill = GeoMaterialId{3};
        return inp;
    }()};

    InputBuilder build_input([] {
        InputBuilder::Options opts;
        opts.tol = Tolerance<>::from_relative(1e-5);
        return opts;
    }());
    OrangeInput inp = build_input(global);
    ASSERT_TRUE(inp);
    for (auto const& u : inp.universes)
    {
        if (auto const* unit = std::get_if<UnitInput>(&u))
        {
            for (auto i : range(unit->volumes.size()))
            {
                std::cout << "volume " << unit->volumes[i].label << " bbox "
                          << unit->volumes[i].bbox << std::endl;
            }
        }
    }
    OrangeParams params(std::move(inp));
    CollectionStateStore<OrangeStateData, MemSpace::host> state(
        params.host_ref(), 1);
    auto locate = [&](Real3 const& pos) -> std::string {
        OrangeTrackView geo(params.host_ref(), state.ref(), TrackSlotId{0});
        geo = GeoTrackInitializer{pos, Real3{0, 0, 1}};
        if (geo.is_outside())
            return "[OUTSIDE]";
        return params.id_to_label(geo.volume_id()).name;
    };
    EXPECT_EQ("v", locate({5.1, 0.2, 0.3}));
    EXPECT_EQ("s", locate({0.1, 0.2, 0.3}));
    // |(0.75,0.75,0.75)| = 1.3 > 1: in a, not in s, hence in v
    EXPECT_EQ("v", locate({0.75, 0.75, 0.75}));
    EXPECT_EQ("v", locate({0.7, 0.8, 0.72}));
}
}  // namespace test
}  // namespace orangeinp
}  // namespace celeritas
