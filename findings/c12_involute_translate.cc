// Replay for C12.4-rebuild-from-accessors on the unchanged tree: SurfaceTranslator rebuilds an
// Involute from its accessors, but the constructor stores pi - a for clockwise involutes and
// displacement_angle() returns the stored value: the "translated" clockwise involute has another
// displacement angle even for a zero translation.
#include <cmath>
#include <cstdio>
#include "orange/surf/Involute.hh"
#include "orange/surf/detail/SurfaceTranslator.hh"
#include "orange/transform/Translation.hh"
using namespace celeritas;
int main()
{
    int bad = 0;
    for (Chirality sign : {Chirality::left, Chirality::right})
    {
        Involute invo{{1, 0}, 2.0, 0.2, sign, 1.0, 3.0};
        detail::SurfaceTranslator translate{Translation{Real3{0, 0, 0}}};
        Involute moved = translate(invo);
        int diff = 0, n = 0;
        for (double x = -8; x <= 8; x += 0.37)
            for (double y = -8; y <= 8; y += 0.41)
            {
                ++n;
                diff += invo.calc_sense({x, y, 0}) != moved.calc_sense({x, y, 0});
            }
        std::printf("%s involute, zero translation: stored angle %.6f -> %.6f; sense differs at %d of %d "
                    "probe points%s\n", sign == Chirality::right ? "clockwise" : "counterclockwise",
                    invo.displacement_angle(), moved.displacement_angle(), diff, n,
                    diff ? "   <-- VIOLATION" : "");
        bad += diff != 0;
    }
    return bad ? 1 : 0;
}
