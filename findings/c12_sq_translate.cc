// Replay for C12.3-quadric-translation on the unchanged tree: SurfaceTranslator for a
// SimpleQuadric with non-zero linear terms computes the wrong constant term, so the sense of the
// translated surface at a translated point differs from the original's sense at the original
// point.  Uses the real library code (liborange).
#include <cstdio>
#include "corecel/cont/Array.hh"
#include "orange/surf/SimpleQuadric.hh"
#include "orange/surf/Sphere.hh"
#include "orange/surf/detail/SurfaceTranslator.hh"
#include "orange/transform/Translation.hh"
using namespace celeritas;
int main()
{
    // x^2 + y^2 + z^2 - 2x = 0 : the unit sphere centred at (1, 0, 0)
    SimpleQuadric sq{Real3{1, 1, 1}, Real3{-2, 0, 0}, 0};
    Real3 const t{1, 0, 0};
    detail::SurfaceTranslator translate{Translation{t}};
    SimpleQuadric moved = translate(sq);
    std::printf("translated: second=(%g,%g,%g) first=(%g,%g,%g) zeroth=%g  (exact: zeroth = 3)\n",
                moved.second()[0], moved.second()[1], moved.second()[2], moved.first()[0],
                moved.first()[1], moved.first()[2], moved.zeroth());
    int bad = 0;
    Real3 const probes[] = {{1, 0, 0}, {1.9, 0, 0}, {0.1, 0, 0}, {1, 0.9, 0}, {2.5, 0, 0}, {1, 1.5, 0}};
    for (Real3 const& p : probes)
    {
        Real3 q{p[0] + t[0], p[1] + t[1], p[2] + t[2]};
        auto s0 = sq.calc_sense(p);
        auto s1 = moved.calc_sense(q);
        bool diff = (s0 != s1);
        std::printf("original at (%g,%g,%g): %s   translated at (%g,%g,%g): %s%s\n", p[0], p[1], p[2],
                    s0 == SignedSense::inside ? "inside" : s0 == SignedSense::outside ? "outside" : "on",
                    q[0], q[1], q[2],
                    s1 == SignedSense::inside ? "inside" : s1 == SignedSense::outside ? "outside" : "on",
                    diff ? "   <-- VIOLATION" : "");
        bad += diff;
    }
    return bad ? 1 : 0;
}
