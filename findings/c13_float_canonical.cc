#include <cstdio>
#include "celeritas/random/detail/GenerateCanonical32.hh"
struct G { using result_type = unsigned int; static constexpr unsigned int max(){return 0xffffffffu;} unsigned int v; unsigned int operator()(){return v;} };
int main(){
  unsigned int vals[]={0xffffffffu,0xffffff80u,0xffffff7fu,0x80000000u};
  for(auto v: vals){ G g{v}; float f = celeritas::detail::GenerateCanonical32<float>()(g); G g2{v}; double d = celeritas::detail::GenerateCanonical32<double>()(g2);
    std::printf("rng=%08x float=%.9g (==1.0f: %d) double=%.17g\n", v, f, f==1.0f, d);}
}
