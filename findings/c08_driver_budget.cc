// Replay for C08.6-driver-length on the unchanged tree: FieldDriver::find_next_chord reduces
// `step` after the last stepper trial when the trial budget (max_nsteps, validated as > 0) runs
// out, and then labels the end state of the *longer* trial with the *reduced* length.
// Build: see findings/README.md.  Uses only the real headers of /repo.
#include <cmath>
#include <cstdio>

#include "corecel/math/ArrayOperators.hh"
#include "corecel/math/ArrayUtils.hh"
#include "celeritas/Quantities.hh"
#include "celeritas/field/DormandPrinceStepper.hh"
#include "celeritas/field/FieldDriver.hh"
#include "celeritas/field/FieldDriverOptions.hh"
#include "celeritas/field/MagFieldEquation.hh"
#include "celeritas/field/MakeMagFieldPropagator.hh"
#include "celeritas/field/Types.hh"
#include "celeritas/field/UniformField.hh"

using namespace celeritas;

int main()
{
    int bad = 0;
    for (short nsteps : {1, 100})
    {
        FieldDriverOptions opts;  // defaults: delta_chord = 0.025 cm
        opts.max_nsteps = nsteps;  // any value > 0 passes validate_input
        validate_input(opts);

        // 10 MeV/c electron in 1 T along z: radius ~ 3.3 cm
        UniformField field({0, 0, 1 * units::tesla});
        auto stepper = make_mag_field_stepper<DormandPrinceStepper>(
            field, units::ElementaryCharge{-1});
        FieldDriver driver{opts, stepper};

        OdeState s0;
        s0.pos = {0, 0, 0};
        s0.mom = {10, 0, 0};
        real_type const request = 2.0;  // cm: chord sagitta ~ 0.15 cm > delta_chord

        DriverResult r = driver.advance(request, s0);
        // Reference: the same stepper applied once for exactly the reported length
        OdeState ref = stepper(r.step, s0).end_state;
        real_type off = distance(ref.pos, r.state.pos);
        // And for the originally requested length
        OdeState full = stepper(request, s0).end_state;
        real_type off_full = distance(full.pos, r.state.pos);
        std::printf(
            "max_nsteps=%3d: reported step %.6f cm; |state - state(reported step)| = %.3e cm; "
            "|state - state(requested %.1f cm)| = %.3e cm\n",
            int(nsteps), r.step, off, request, off_full);
        if (off > 1e-6)
        {
            std::printf("  -> VIOLATION: the returned state was advanced by %.3f cm but is "
                        "labelled %.6f cm\n", request, r.step);
            ++bad;
        }
    }
    return bad ? 1 : 0;
}
