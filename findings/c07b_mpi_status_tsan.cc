// Replay: two threads obtain the two default loggers for the first time.
// Each logger is a function-local static (serialised per object), but both
// initialisers call ScopedMpiInit::status(), which lazily writes the static
// data member status_ without synchronisation.
#include <chrono>
#include <thread>
#include "corecel/io/Logger.hh"
#include "corecel/sys/ScopedMpiInit.cc"   // instrumented copies
#include "corecel/io/Logger.cc"
int main()
{
    std::thread a([] { celeritas::world_logger(); });
    std::thread b([] { celeritas::self_logger(); });
    a.join();
    b.join();
    return 0;
}
