#include <cmath>
#include <cstdio>
#include "corecel/grid/UniformGrid.hh"
#include "corecel/grid/UniformGridData.hh"
using namespace celeritas;
int main()
{
    int bad = 0;
    for (int n : {22, 36, 85, 8})
    {
        auto data = UniformGridData::from_bounds(std::log(1e-6), std::log(10.0), n);
        UniformGrid grid{data};
        double e = std::nextafter(10.0, 0.0);
        double loge = std::log(e);
        bool inside = loge > grid.front() && loge < grid.back();
        auto idx = grid.find(loge);
        std::printf("n=%2d: log(E)=%.17g back=%.17g inside=%d find=%u size=%u%s\n", n, loge,
                    grid.back(), int(inside), unsigned(idx), unsigned(grid.size()),
                    (inside && idx + 1 >= grid.size()) ? "  <-- find returns the last knot: [idx+1] is past the table" : "");
        bad += (inside && idx + 1 >= grid.size());
    }
    return bad ? 1 : 0;
}
