// Replay for C11.2-safety-returns on the unchanged tree: CalcSafetyDistance returned +infinity
// when the surface normal is undefined (point exactly at the centre of a sphere or on the axis
// of a cylinder), although the true distance to the surface is the radius.
// Build: g++ -std=c++17 -O2 -DNDEBUG -I/repo/src -I/repo/_build/include c11_safety_center.cc
#include <cmath>
#include <cstdio>

#include "orange/surf/CylAligned.hh"
#include "orange/surf/CylCentered.hh"
#include "orange/surf/Sphere.hh"
#include "orange/surf/SphereCentered.hh"
#include "orange/univ/detail/SurfaceFunctors.hh"

using namespace celeritas;

template<class S>
int check(char const* name, S const& surf, Real3 const& pos, real_type truth)
{
    detail::CalcSafetyDistance calc{pos};
    real_type s = calc(surf);
    bool bad = !(s <= truth);
    std::printf("%-28s at (%g,%g,%g): safety = %g, true distance = %g%s\n",
                name, pos[0], pos[1], pos[2], s, truth,
                bad ? "   <-- VIOLATION (safety exceeds the true distance)" : "");
    return bad;
}

int main()
{
    int bad = 0;
    bad += check("Sphere{(1,2,3), r=5}", Sphere{{1, 2, 3}, 5.0}, {1, 2, 3}, 5.0);
    bad += check("SphereCentered{r=2}", SphereCentered{2.0}, {0, 0, 0}, 2.0);
    bad += check("CylCentered<z>{r=3}", CylCentered<Axis::z>{3.0}, {0, 0, 7}, 3.0);
    bad += check("CylAligned<x>{(.,1,2), r=4}", CylAligned<Axis::x>{{0, 1, 2}, 4.0}, {9, 1, 2}, 4.0);
    // control: slightly off centre
    bad += check("Sphere{(1,2,3), r=5} off-centre", Sphere{{1, 2, 3}, 5.0}, {1.5, 2, 3}, 4.5);
    return bad ? 1 : 0;
}
